#!/bin/bash
# refac_eval.sh <patch.diff> [label]: apply a behaviour-preserving change to /repo, run ALL checks, undo.
# Any report is a false alarm of the machinery (or the change was not behaviour-preserving: read it).
cd /verif
P=$(realpath $1); L=${2:-$(basename $(dirname $P))-$(basename $P .diff)}
git -C /repo diff --quiet || { echo "/repo has local changes"; exit 2; }
git -C /repo apply --check $P 2>/dev/null || { echo "$L: patch does not apply"; exit 3; }
git -C /repo apply $P
mkdir -p /tmp/refac_out
./check C01 > /tmp/refac_out/$L.C01.out 2>&1     # first run extracts facts under the cache lock
ls analysis/rules | grep -o "c[0-9][0-9]" | sort -u | tr a-z A-Z | grep -v C01 | xargs -P 10 -I{} sh -c "./check {} > /tmp/refac_out/$L.{}.out 2>&1"
git -C /repo checkout -- .
n=0
for f in /tmp/refac_out/$L.C??.out; do
  c=$(basename $f .out); c=${c##*.}
  if grep -q "^VIOLATION\|^FAIL" $f; then n=$((n+1)); grep -E "^FAIL" $f | cut -c1-220 | sed "s/^/$L $c: /" | head -6; fi
done
echo "$L: $n check(s) reported"
