#!/usr/bin/env python3
"""One-off helper used while triaging: turns the open-site dump into reviewed_sites entries by explicit rules.
The output is reviewed by hand and committed as analysis/specs/reviewed_sites.json (the checks never run this)."""
import json, re, sys
sites = json.load(open(sys.argv[1]))
prop = sys.argv[2]
RULES = [
    # (fn regex, site regex, reason, guard regexes that must dominate the site)
    (r".*Attribute::aggregator_asn", r".*", "called only on an AGGREGATOR attribute produced by Attribute::decode (always canonicalised to the 8-byte Bin form); reconcile_as4 selects it with position(code == AGGREGATOR)", []),
    (r".*Attribute::as_path_take_prefix|.*Attribute::count_as_hops", r"assert:BoundsCheck:bin\[pos \+ 1\]|index:.*", "input is the Bin payload of an AS_PATH / AS4_PATH that passed the segment walk of Attribute::decode (every segment header and body lies inside the buffer)", [r"\(pos < slice::len\(&\*bin\)\):T"]),
    (r".*Attribute::count_as_hops", r"assert:Overflow\(Add\):count \+= .*", "hop count of one attribute: at most 255 per segment and at most 32767 segments in a 65535-byte attribute", [r"\(pos < slice::len\(&\*bin\)\):T"]),
    (r".*Attribute::decode", r"index:\[start( \+ 1)?\]", "start = pos + 2 + 2*i with i < seg_count and seg_end = pos + 2 + 2*seg_count <= len(b) (multiplicative bound, outside the zone domain)", [r"\(seg_end > Vec::len\(&b\)\):F", r"two_byte_as:T"]),
    (r".*PeerCodec::parse_message", r"assert:Overflow\(Add\):c\.position\(\) \+ 2#2|unwrap:c\.read_u8\(\)\.unwrap\(\)#[56]|assert:Overflow\(Add\):c\.position\(\) \+ cap_len as u64",
     "capability loop: position < op_end <= param_end <= len(buf) (op_end and the bound tested against param_end are the same sum position + op_len)",
     [r"\(param_end < \(Cursor::position\(&c\) \+ op_len\)\.0\):F", r"\(Cursor::position\(&c\) < op_end\):T", r"\(slice::len\(&\*buf\) < \(MINIMUM_OPEN_LENGTH\(=29\) \+ param_len\)\.0\):F"]),
    (r".*PeerCodec::parse_message", r"unwrap:c\.read_u8\(\)\.unwrap\(\)#[56]", "", [r"\(op_end < \(Cursor::position\(&c\) \+ 2\)\.0\):F"]),
    (r".*PeerCodec::parse_message", r"index:\[c\.position\(\) as usize - 2.*", "position >= 31 after the two option-header bytes and position + op_len <= param_end <= len(buf)",
     [r"\(param_end < \(Cursor::position\(&c\) \+ op_len\)\.0\):F", r"\(slice::len\(&\*buf\) < \(MINIMUM_OPEN_LENGTH\(=29\) \+ param_len\)\.0\):F"]),
    (r".*PeerCodec::parse_message", r"unwrap:c\.read_u(8|16).*\.unwrap\(\)#[4789]",
     "attribute loop: position + k <= attr_end = 23 + withdrawn_len + attr_len <= len(buf) (three-variable sum, outside the zone domain)",
     [r"\(attr_end < \(Cursor::position\(&c\) \+ [12]\)\.0\):F", r"\(slice::len\(&\*buf\) < Into::into\(.*withdrawn_len \+ attr_len.*\):F"]),
    (r".*PeerCodec::parse_message", r"index:\[pos\.\.end\]", "pos = position <= end = pos + alen and end <= len of the cursor's buffer is tested just before", [r"\(end > slice::len\(.*Cursor::get_ref\(&c\)\)\):F"]),
    (r".*PeerCodec::parse_message", r"unwrap:a\.binary\(\)\.unwrap\(\)(#2)?", "MP_REACH / MP_UNREACH attributes come from Attribute::decode's default arm, which always builds AttributeData::Bin", [r"discr\(mp_(un)?reach_attr\):Some"]),
    (r".*PeerCodec::reconcile_as4$", r"unwrap:.*binary\(\)\.unwrap\(\)", "AS_PATH / AS4_PATH / AGGREGATOR / AS4_AGGREGATOR attributes produced by Attribute::decode always carry AttributeData::Bin", []),
    (r".*PeerCodec::reconcile_as4$", r"unwrap:Attribute::new_with_bin\(Attribute::(AGGREGATOR|AS_PATH), .*\)\.unwrap\(\)", "new_with_bin returns None only for the four Val codes (1,4,5,9); AGGREGATOR (7) and AS_PATH (2) are Bin codes", []),
    (r".*PeerCodec::reconcile_as4::\{closure#[13]\}", r"vec-remove:attrs\.remove\(i\)", "i is the index returned by attrs.iter().position(..) on the same vector in the same expression", []),
    (r".*(Labeled|Vpn)V[46]Nlri::decode|.*MplsLabelStack::encoded_len", r"assert:Overflow\(Mul\):.*", "label count is bounded by the message size (<= 21845 three-byte labels in 65535 bytes): 3 * n * 8 cannot overflow usize", []),
    (r".*ls::decode_(link|prefix)_desc_tlvs::\{closure#0\}", r"assert:BoundsCheck:b\[[01]\]", "the closure is only applied to items of value.chunks_exact(2): every item has length 2", []),
    (r".*ls::decode_node_desc_and_rest", r"index:\[consumed\.\.\]", "consumed = cursor position after a successful read_tlv, which sets the position to pos + tlv_len <= len(data)", [r"discr\(Try::branch\(ls::read_tlv\(.*\)\)\):Continue"]),
    (r".*mup::decode_prefix", r"index:\[\.\.byte_len\]#2", "in the AFI_IP arm addr_bit_len(family) returned 32, so bit_len <= 32 and byte_len <= 4 (correlation between family.afi() and max_bits)", [r"\(bit_len > max_bits\):F", r"Family::afi\(&family\):1"]),
    (r".*mup::MupType2SessionTransformedRoute::decode", r"index:\[teid_start\.\.teid_start \+ teid_bytes\]|copy_from_slice:.*", "teid_start + teid_bytes <= len(data) is tested just before (two-variable sum); both slices have length teid_bytes <= 4 because ea_len - ip_bits <= 32",
     [r"\(slice::len\(&\*data\) < \(teid_start \+ teid_bytes\)\.0\):F", r"\(ea_len > \(ip_bits \+ 32\)\.0\):F"]),
]
out = []
left = []
for e in sites:
    hit = None
    guards = []
    reason = ""
    for fr, sr, rs, gs in RULES:
        if re.fullmatch(fr, e["fn"]) and re.fullmatch(sr, e["site"]):
            if rs and not reason:
                reason = rs
            guards += gs
            hit = True
    if hit:
        # every guard regex must match an atom dominating the site today
        miss = [g for g in guards if not any(re.search(g, a) for a in e["atoms"])]
        if miss:
            print("GUARD MISSING", e["fn"], e["site"], miss, file=sys.stderr)
        out.append({"prop": prop, "fn": e["fn"], "site": e["site"], "reason": reason, "guards": guards})
    else:
        left.append(e)
json.dump(out, sys.stdout, indent=1)
for e in left:
    print("UNTRIAGED", e["fn"], "|", e["site"], file=sys.stderr)
