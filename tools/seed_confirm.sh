#!/bin/bash
# seed_confirm.sh <worktree> <i> [demo-test-filter]
# Confirms a seeded change in a scratch worktree: patch applies to HEAD, builds, existing suite passes with it,
# and (when a demo diff exists) the demo test fails with the patch and passes without it.
set -u
WT=$1; I=$2; FILTER=${3:-}
cd "$WT" || exit 2
git checkout -q -- . ; git clean -fdq -e _seed -e target
P=_seed/patch$I.diff; D=_seed/demo$I.diff
OUT=_seed/confirm$I.txt; : > $OUT
git apply --check $P 2>>$OUT || { echo "patch does not apply" | tee -a $OUT; exit 1; }
git apply $P
if cargo build --offline >>$OUT 2>&1; then echo "build: ok" | tee -a $OUT; else echo "build: FAILED" | tee -a $OUT; git checkout -q -- .; exit 1; fi
cargo test --workspace --no-fail-fast --offline 2>&1 | grep -E "^test result|FAILED|failed" > _seed/suite$I.txt
PASS=$(grep -E "^test result: ok" _seed/suite$I.txt | sed -E 's/.*ok\. ([0-9]+) passed.*/\1/' | paste -sd+ | bc)
FAIL=$(grep -c -E "FAILED|failed;" _seed/suite$I.txt | head -1)
echo "suite with patch: passed=$PASS failed-lines=$(grep -E 'test result: FAILED' _seed/suite$I.txt | wc -l)" | tee -a $OUT
if [ -f $D ]; then
  if git apply --check $D 2>>$OUT; then
    git apply $D
    cargo test --workspace --no-fail-fast --offline $FILTER 2>&1 | grep -E "^test .* (ok|FAILED)$|^test result" | grep -v " 0 passed; 0 failed" > _seed/demo_with$I.txt
    echo "demo WITH patch: $(grep -c FAILED$ _seed/demo_with$I.txt) failing tests, $(grep -c ' ok$' _seed/demo_with$I.txt) passing" | tee -a $OUT
    grep FAILED$ _seed/demo_with$I.txt | head -5 >> $OUT
    # now without the patch
    git apply -R $P
    cargo test --workspace --no-fail-fast --offline $FILTER 2>&1 | grep -E "^test .* (ok|FAILED)$|^test result" | grep -v " 0 passed; 0 failed" > _seed/demo_without$I.txt
    echo "demo WITHOUT patch: $(grep -c FAILED$ _seed/demo_without$I.txt) failing tests, $(grep -c ' ok$' _seed/demo_without$I.txt) passing" | tee -a $OUT
  else
    echo "demo diff does not apply" | tee -a $OUT
  fi
fi
git checkout -q -- . ; git clean -fdq -e _seed -e target
