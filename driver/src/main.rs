// rbgp-facts: rustc_private fact extractor for the rustybgp static checks.
//
// Used as RUSTC_WORKSPACE_WRAPPER under `cargo +nightly check`. For the crates named in
// RBGP_FACTS_CRATES (comma separated) it writes, into RBGP_FACTS_DIR:
//   <crate>.fns.jsonl   one JSON object per MIR body (fn / method / closure / coroutine)
//   <crate>.meta.jsonl  ADT records, index records (byte offsets into fns.jsonl + call edges)
// Every other invocation behaves exactly like rustc.
#![feature(rustc_private)]
#![allow(clippy::all)]

extern crate rustc_abi;
extern crate rustc_data_structures;
extern crate rustc_driver;
extern crate rustc_hir;
extern crate rustc_index;
extern crate rustc_interface;
extern crate rustc_middle;
extern crate rustc_span;

use rustc_driver::Compilation;
use rustc_hir::def::DefKind;
use rustc_hir::def_id::{DefId, LOCAL_CRATE};
use rustc_middle::mir::{
    self, AggregateKind, AssertKind, BasicBlock, Body, BorrowKind, Operand, Place, PlaceElem,
    Rvalue, StatementKind, TerminatorKind, UnwindAction,
};
use rustc_middle::ty::print::with_no_trimmed_paths;
use rustc_middle::ty::{self, Instance, InstanceKind, Ty, TyCtxt, TypingEnv};
use rustc_span::Span;
use std::collections::BTreeSet;
use std::collections::HashSet;
use std::fmt::Write as _;

struct Cb {
    out_dir: String,
}

fn jstr(s: &str) -> String {
    let mut o = String::with_capacity(s.len() + 2);
    o.push('"');
    for c in s.chars() {
        match c {
            '"' => o.push_str("\\\""),
            '\\' => o.push_str("\\\\"),
            '\n' => o.push_str("\\n"),
            '\r' => o.push_str("\\r"),
            '\t' => o.push_str("\\t"),
            c if (c as u32) < 0x20 => {
                let _ = write!(o, "\\u{:04x}", c as u32);
            }
            c => o.push(c),
        }
    }
    o.push('"');
    o
}

fn trunc(s: String, n: usize) -> String {
    if s.len() <= n {
        return s;
    }
    let mut end = n;
    while !s.is_char_boundary(end) {
        end -= 1;
    }
    format!("{}…", &s[..end])
}

fn squash(s: &str) -> String {
    let mut o = String::new();
    let mut ws = false;
    for c in s.chars() {
        if c.is_whitespace() {
            if !ws {
                o.push(' ');
            }
            ws = true;
        } else {
            o.push(c);
            ws = false;
        }
    }
    o
}

struct Ctx<'tcx> {
    tcx: TyCtxt<'tcx>,
    adts: HashSet<DefId>,
}

impl<'tcx> Ctx<'tcx> {
    /// Crate-independent key of an item: `<crate>::<def path>`.
    fn key(&self, did: DefId) -> String {
        let tcx = self.tcx;
        format!("{}{}", tcx.crate_name(did.krate), tcx.def_path(did).to_string_no_crate_verbose())
    }

    /// Human-readable name, identical whichever crate prints it: for items of the workspace the crate
    /// name is always prefixed.
    fn name(&self, did: DefId) -> String {
        let tcx = self.tcx;
        let s = with_no_trimmed_paths!(tcx.def_path_str(did));
        if did.is_local() { format!("{}::{}", tcx.crate_name(LOCAL_CRATE), s) } else { s }
    }

    fn ty_str(&self, ty: Ty<'tcx>) -> String {
        trunc(with_no_trimmed_paths!(format!("{}", ty)), 240)
    }

    fn line_of(&self, sp: Span) -> (u32, bool, String) {
        let x = sp.from_expansion();
        let mut s = sp;
        let mut guard = 0;
        while s.from_expansion() && guard < 32 {
            s = s.source_callsite();
            guard += 1;
        }
        let sm = self.tcx.sess.source_map();
        let loc = sm.lookup_char_pos(s.lo());
        let file = match &loc.file.name {
            rustc_span::FileName::Real(r) => match r.local_path() {
                Some(p) => p.to_string_lossy().to_string(),
                None => String::from("?"),
            },
            _ => String::from("?"),
        };
        (loc.line as u32, x, file)
    }

    fn snippet(&self, sp: Span) -> String {
        let mut s = sp;
        let mut guard = 0;
        while s.from_expansion() && guard < 32 {
            s = s.source_callsite();
            guard += 1;
        }
        match self.tcx.sess.source_map().span_to_snippet(s) {
            Ok(t) => trunc(squash(&t), 140),
            Err(_) => String::new(),
        }
    }

    fn place(&mut self, body: &Body<'tcx>, p: &Place<'tcx>) -> String {
        let tcx = self.tcx;
        let mut o = format!("{{\"l\":{}", p.local.as_usize());
        if !p.projection.is_empty() {
            o.push_str(",\"p\":[");
            let mut pty = mir::PlaceTy::from_ty(body.local_decls[p.local].ty);
            for (i, elem) in p.projection.iter().enumerate() {
                if i > 0 {
                    o.push(',');
                }
                match elem {
                    PlaceElem::Deref => o.push_str("\"*\""),
                    PlaceElem::Field(f, _) => {
                        let mut nm = String::new();
                        match pty.ty.kind() {
                            ty::Adt(adt, _) => {
                                self.adts.insert(adt.did());
                                let vi = pty.variant_index.unwrap_or(rustc_abi::FIRST_VARIANT);
                                if vi.as_usize() < adt.variants().len() {
                                    let v = adt.variant(vi);
                                    if f.as_usize() < v.fields.len() {
                                        nm = v.fields[f].name.to_string();
                                    }
                                }
                            }
                            ty::Closure(did, _) | ty::CoroutineClosure(did, _) => {
                                let names = tcx.closure_saved_names_of_captured_variables(*did);
                                if f.as_usize() < names.len() {
                                    nm = names[f].to_string();
                                }
                            }
                            ty::Coroutine(did, _) => {
                                if let Some(vi) = pty.variant_index {
                                    if let Some(layout) = body.coroutine_layout_raw() {
                                        if vi.as_usize() < layout.variant_fields.len()
                                            && f.as_usize() < layout.variant_fields[vi].len()
                                        {
                                            let saved = layout.variant_fields[vi][f];
                                            if let Some(n) = layout.field_names[saved] {
                                                nm = n.to_string();
                                            } else {
                                                nm = format!("_s{}", saved.as_usize());
                                            }
                                        }
                                    }
                                } else {
                                    let names =
                                        tcx.closure_saved_names_of_captured_variables(*did);
                                    if f.as_usize() < names.len() {
                                        nm = names[f].to_string();
                                    }
                                }
                            }
                            _ => {}
                        }
                        let _ = write!(o, "{{\"f\":{},\"n\":{}}}", f.as_usize(), jstr(&nm));
                    }
                    PlaceElem::Index(l) => {
                        let _ = write!(o, "{{\"i\":{}}}", l.as_usize());
                    }
                    PlaceElem::ConstantIndex { offset, min_length, from_end } => {
                        let _ = write!(
                            o,
                            "{{\"ci\":{},\"ml\":{},\"fe\":{}}}",
                            offset, min_length, from_end
                        );
                    }
                    PlaceElem::Subslice { from, to, from_end } => {
                        let _ = write!(o, "{{\"ss\":[{},{},{}]}}", from, to, from_end);
                    }
                    PlaceElem::Downcast(sym, vi) => {
                        let nm = match sym {
                            Some(s) => s.to_string(),
                            None => match pty.ty.kind() {
                                ty::Adt(adt, _) if vi.as_usize() < adt.variants().len() => {
                                    adt.variant(vi).name.to_string()
                                }
                                _ => format!("#{}", vi.as_usize()),
                            },
                        };
                        let _ = write!(o, "{{\"d\":{},\"vi\":{}}}", jstr(&nm), vi.as_usize());
                    }
                    PlaceElem::OpaqueCast(_) => o.push_str("\"opaque\""),
                    PlaceElem::UnwrapUnsafeBinder(_) => o.push_str("\"unbind\""),
                }
                pty = pty.projection_ty(tcx, elem);
            }
            o.push(']');
        }
        o.push('}');
        o
    }

    fn constant(&mut self, body_did: DefId, c: &mir::ConstOperand<'tcx>) -> String {
        let tcx = self.tcx;
        let ty = c.const_.ty();
        let mut o = format!("{{\"ty\":{}", jstr(&self.ty_str(ty)));
        match ty.kind() {
            ty::FnDef(did, _) => {
                let _ = write!(o, ",\"fn\":{},\"fnn\":{}", jstr(&self.key(*did)), jstr(&self.name(*did)));
            }
            ty::Bool | ty::Int(_) | ty::Uint(_) | ty::Char => {
                let env = TypingEnv::post_analysis(tcx, body_did);
                if let Some(si) = c.const_.try_eval_scalar_int(tcx, env) {
                    let size = si.size();
                    let v: i128 = match ty.kind() {
                        ty::Int(_) => si.to_int(size),
                        _ => si.to_uint(size) as i128,
                    };
                    let _ = write!(o, ",\"v\":{}", v);
                }
            }
            ty::Adt(adt, ga)
                if adt.is_struct()
                    && adt.non_enum_variant().fields.len() == 1
                    && matches!(
                        adt.non_enum_variant().fields.iter().next().unwrap().ty(tcx, ga).kind(),
                        ty::Int(_) | ty::Uint(_)
                    ) =>
            {
                // newtype over an integer (`Family(u32)`): export the wrapped value
                let env = TypingEnv::post_analysis(tcx, body_did);
                if let Some(si) = c.const_.try_eval_scalar_int(tcx, env) {
                    let size = si.size();
                    let _ = write!(o, ",\"v\":{}", si.to_uint(size) as i128);
                }
            }
            ty::Adt(adt, _) if adt.is_enum() && adt.variants().iter().all(|v| v.fields.is_empty()) => {
                let env = TypingEnv::post_analysis(tcx, body_did);
                if let Some(si) = c.const_.try_eval_scalar_int(tcx, env) {
                    let size = si.size();
                    let raw = si.to_uint(size);
                    for (vi, v) in adt.variants().iter_enumerated() {
                        let dv = adt.discriminant_for_variant(tcx, vi);
                        let mask: u128 = if size.bits() >= 128 { u128::MAX } else { (1u128 << size.bits()) - 1 };
                        if (dv.val & mask) == (raw & mask) {
                            self.adts.insert(adt.did());
                            let _ = write!(o, ",\"variant\":{},\"adt\":{}", jstr(&v.name.to_string()), jstr(&self.key(adt.did())));
                            break;
                        }
                    }
                }
            }
            _ => {}
        }
        if let mir::Const::Ty(_, ct) = c.const_ {
            // const generic parameter (`N` in `fn f<const N: usize>`): export its name so that the analyses can
            // treat it as one symbolic value instead of an unknown constant per occurrence
            if let ty::ConstKind::Param(p) = ct.kind() {
                let _ = write!(o, ",\"param\":{}", jstr(&p.name.to_string()));
            }
        }
        if let mir::Const::Unevaluated(u, _) = c.const_ {
            let _ = write!(o, ",\"def\":{}", jstr(&self.name(u.def)));
            if let Some(p) = u.promoted {
                // promoted temporaries (`&MatchOption::Any`, `&5u32`): summarise the tiny body
                let _ = write!(o, ",\"promoted\":{}", p.as_usize());
                let bodies = tcx.promoted_mir(u.def);
                if p.as_usize() < bodies.len() {
                    let pb = &bodies[p];
                    'outer: for bb in pb.basic_blocks.iter() {
                        for st in bb.statements.iter() {
                            if let StatementKind::Assign(pr) = &st.kind {
                                match &pr.1 {
                                    Rvalue::Aggregate(k, fields) if fields.is_empty() => {
                                        if let AggregateKind::Adt(did, vi, ..) = &**k {
                                            let adt = tcx.adt_def(*did);
                                            self.adts.insert(*did);
                                            let _ = write!(
                                                o,
                                                ",\"variant\":{},\"adt\":{}",
                                                jstr(&adt.variant(*vi).name.to_string()),
                                                jstr(&self.key(*did))
                                            );
                                            break 'outer;
                                        }
                                    }
                                    Rvalue::Use(Operand::Constant(cc), ..) => {
                                        let cty = cc.const_.ty();
                                        // `&Family::L2VPN_EVPN`: name of the associated constant and, for a
                                        // newtype over an integer, its value
                                        if let mir::Const::Unevaluated(iu, _) = cc.const_ {
                                            if iu.promoted.is_none() {
                                                let _ = write!(o, ",\"cdef\":{}", jstr(&self.name(iu.def)));
                                            }
                                        }
                                        let newtype_int = match cty.kind() {
                                            ty::Adt(a, ga) if a.is_struct() && a.non_enum_variant().fields.len() == 1 => {
                                                let f = a.non_enum_variant().fields.iter().next().unwrap();
                                                matches!(f.ty(tcx, ga).kind(), ty::Int(_) | ty::Uint(_))
                                            }
                                            _ => false,
                                        };
                                        if newtype_int {
                                            let env = TypingEnv::post_analysis(tcx, u.def);
                                            if let Some(si) = cc.const_.try_eval_scalar_int(tcx, env) {
                                                let size = si.size();
                                                let _ = write!(o, ",\"v\":{}", si.to_uint(size) as i128);
                                                break 'outer;
                                            }
                                        }
                                        if matches!(cty.kind(), ty::Bool | ty::Int(_) | ty::Uint(_) | ty::Char) {
                                            let env = TypingEnv::post_analysis(tcx, u.def);
                                            if let Some(si) = cc.const_.try_eval_scalar_int(tcx, env) {
                                                let size = si.size();
                                                let v: i128 = match cty.kind() {
                                                    ty::Int(_) => si.to_int(size),
                                                    _ => si.to_uint(size) as i128,
                                                };
                                                let _ = write!(o, ",\"v\":{}", v);
                                                break 'outer;
                                            }
                                        }
                                    }
                                    _ => {}
                                }
                            }
                        }
                    }
                }
            }
        }
        if let ty::Ref(_, inner, _) = ty.kind() {
            if inner.is_str() {
                // string literal: keep the text, it is useful for panic messages
                let s = format!("{}", c.const_);
                let _ = write!(o, ",\"s\":{}", jstr(&trunc(s, 80)));
            }
        }
        o.push('}');
        o
    }

    fn operand(&mut self, body_did: DefId, body: &Body<'tcx>, op: &Operand<'tcx>) -> String {
        match op {
            Operand::Copy(p) => format!("{{\"c\":{}}}", self.place(body, p)),
            Operand::Move(p) => format!("{{\"m\":{}}}", self.place(body, p)),
            Operand::Constant(c) => format!("{{\"k\":{}}}", self.constant(body_did, c)),
            #[allow(unreachable_patterns)]
            _ => String::from("{\"k\":{\"ty\":\"?runtime\"}}"),
        }
    }

    fn rvalue(&mut self, body_did: DefId, body: &Body<'tcx>, rv: &Rvalue<'tcx>) -> String {
        let tcx = self.tcx;
        match rv {
            Rvalue::Use(op, ..) => format!("{{\"r\":\"use\",\"o\":{}}}", self.operand(body_did, body, op)),
            Rvalue::Repeat(op, _) => {
                format!("{{\"r\":\"repeat\",\"o\":{}}}", self.operand(body_did, body, op))
            }
            Rvalue::Ref(_, bk, p) => {
                let m = matches!(bk, BorrowKind::Mut { .. });
                format!("{{\"r\":\"ref\",\"mut\":{},\"p\":{}}}", m, self.place(body, p))
            }
            Rvalue::ThreadLocalRef(_) => String::from("{\"r\":\"tlref\"}"),
            Rvalue::RawPtr(_, p) => format!("{{\"r\":\"rawptr\",\"p\":{}}}", self.place(body, p)),
            Rvalue::Cast(kind, op, to) => {
                let from = op.ty(&body.local_decls, tcx);
                format!(
                    "{{\"r\":\"cast\",\"k\":{},\"o\":{},\"from\":{},\"to\":{}}}",
                    jstr(&trunc(format!("{:?}", kind), 60)),
                    self.operand(body_did, body, op),
                    jstr(&self.ty_str(from)),
                    jstr(&self.ty_str(*to))
                )
            }
            Rvalue::BinaryOp(op, ab) => {
                let (a, b) = &**ab;
                format!(
                    "{{\"r\":\"bin\",\"op\":\"{:?}\",\"a\":{},\"b\":{}}}",
                    op,
                    self.operand(body_did, body, a),
                    self.operand(body_did, body, b)
                )
            }
            Rvalue::UnaryOp(op, a) => {
                format!("{{\"r\":\"un\",\"op\":\"{:?}\",\"a\":{}}}", op, self.operand(body_did, body, a))
            }
            Rvalue::Discriminant(p) => {
                let pty = p.ty(&body.local_decls, tcx).ty;
                let mut adt = String::new();
                if let ty::Adt(a, _) = pty.kind() {
                    self.adts.insert(a.did());
                    adt = self.key(a.did());
                }
                format!("{{\"r\":\"discr\",\"p\":{},\"adt\":{}}}", self.place(body, p), jstr(&adt))
            }
            Rvalue::Aggregate(kind, fields) => {
                let mut o = String::from("{\"r\":\"agg\"");
                match &**kind {
                    AggregateKind::Array(_) => o.push_str(",\"k\":\"array\""),
                    AggregateKind::Tuple => o.push_str(",\"k\":\"tuple\""),
                    AggregateKind::Adt(did, vi, _, _, _) => {
                        self.adts.insert(*did);
                        let adt = tcx.adt_def(*did);
                        let v = adt.variant(*vi);
                        let _ = write!(
                            o,
                            ",\"k\":\"adt\",\"adt\":{},\"adtn\":{},\"v\":{},\"fn\":[",
                            jstr(&self.key(*did)),
                            jstr(&self.name(*did)),
                            jstr(&v.name.to_string())
                        );
                        for (i, f) in v.fields.iter().enumerate() {
                            if i > 0 {
                                o.push(',');
                            }
                            o.push_str(&jstr(&f.name.to_string()));
                        }
                        o.push(']');
                    }
                    AggregateKind::Closure(did, _) => {
                        let _ = write!(o, ",\"k\":\"closure\",\"def\":{}", jstr(&self.key(*did)));
                    }
                    AggregateKind::Coroutine(did, _) => {
                        let _ = write!(o, ",\"k\":\"coroutine\",\"def\":{}", jstr(&self.key(*did)));
                    }
                    AggregateKind::CoroutineClosure(did, _) => {
                        let _ = write!(o, ",\"k\":\"coroutine_closure\",\"def\":{}", jstr(&self.key(*did)));
                    }
                    AggregateKind::RawPtr(..) => o.push_str(",\"k\":\"rawptr\""),
                }
                o.push_str(",\"fields\":[");
                for (i, f) in fields.iter().enumerate() {
                    if i > 0 {
                        o.push(',');
                    }
                    o.push_str(&self.operand(body_did, body, f));
                }
                o.push_str("]}");
                o
            }
            Rvalue::CopyForDeref(p) => {
                format!("{{\"r\":\"use\",\"o\":{{\"c\":{}}}}}", self.place(body, p))
            }
            Rvalue::WrapUnsafeBinder(op, _) => {
                format!("{{\"r\":\"use\",\"o\":{}}}", self.operand(body_did, body, op))
            }
            #[allow(unreachable_patterns)]
            _ => String::from("{\"r\":\"other\"}"),
        }
    }

    fn callee(
        &mut self,
        body_did: DefId,
        body: &Body<'tcx>,
        func: &Operand<'tcx>,
    ) -> String {
        let tcx = self.tcx;
        let fty = func.ty(&body.local_decls, tcx);
        match *fty.kind() {
            ty::FnDef(did, gargs) => {
                let mut o = format!(
                    "{{\"key\":{},\"name\":{}",
                    jstr(&self.key(did)),
                    jstr(&self.name(did))
                );
                let ga = with_no_trimmed_paths!(format!("{:?}", gargs));
                let _ = write!(o, ",\"ga\":{}", jstr(&trunc(ga, 200)));
                if let Some(tr) = tcx.trait_of_assoc(did) {
                    let _ = write!(o, ",\"trait\":{}", jstr(&self.name(tr)));
                }
                let env = TypingEnv::post_analysis(tcx, body_did);
                let gargs_n = tcx.try_normalize_erasing_regions(env, ty::Unnormalized::new_wip(gargs)).unwrap_or(gargs);
                if let Ok(Some(inst)) = Instance::try_resolve(tcx, env, did, gargs_n) {
                    let (kind, rdid) = match inst.def {
                        InstanceKind::Item(d) => ("item", Some(d)),
                        InstanceKind::Virtual(d, _) => ("virtual", Some(d)),
                        InstanceKind::ClosureOnceShim { call_once, .. } => ("once_shim", Some(call_once)),
                        InstanceKind::FnPtrShim(d, _) => ("fnptr_shim", Some(d)),
                        InstanceKind::ReifyShim(d, _) => ("reify", Some(d)),
                        InstanceKind::CloneShim(d, _) => ("clone_shim", Some(d)),
                        InstanceKind::DropGlue(d, _) => ("drop_glue", Some(d)),
                        InstanceKind::Intrinsic(d) => ("intrinsic", Some(d)),
                        _ => ("other", None),
                    };
                    let _ = write!(o, ",\"rk\":\"{}\"", kind);
                    if let Some(d) = rdid {
                        let _ = write!(o, ",\"rkey\":{},\"rname\":{}", jstr(&self.key(d)), jstr(&self.name(d)));
                    }
                    if kind == "once_shim" {
                        // the closure itself is the first generic arg's type
                        if let Some(t) = inst.args.types().next() {
                            if let ty::Closure(cd, _) = t.kind() {
                                let _ = write!(o, ",\"rkey2\":{}", jstr(&self.key(*cd)));
                            }
                        }
                    }
                }
                // self type for method calls on closures (FnOnce::call_once etc.)
                o.push('}');
                o
            }
            _ => format!("{{\"ptr\":{}}}", self.operand(body_did, body, func)),
        }
    }

    fn body_json(&mut self, did: DefId, body: &Body<'tcx>) -> (String, String) {
        let tcx = self.tcx;
        let kind = tcx.def_kind(did);
        let kind_s = match kind {
            DefKind::Fn => "fn",
            DefKind::AssocFn => "method",
            DefKind::Closure => {
                if tcx.is_coroutine(did) {
                    "coroutine"
                } else {
                    "closure"
                }
            }
            _ => "other",
        };
        let key = self.key(did);
        let name = self.name(did);
        let (lo_line, _, file) = self.line_of(body.span.shrink_to_lo());
        let (hi_line, _, _) = self.line_of(body.span.shrink_to_hi());
        let mut o = String::with_capacity(16 * 1024);
        let _ = write!(
            o,
            "{{\"key\":{},\"name\":{},\"crate\":{},\"kind\":\"{}\",\"file\":{},\"lo\":{},\"hi\":{},\"argc\":{}",
            jstr(&key),
            jstr(&name),
            jstr(&tcx.crate_name(LOCAL_CRATE).to_string()),
            kind_s,
            jstr(&file),
            lo_line,
            hi_line,
            body.arg_count
        );
        let parent = tcx.typeck_root_def_id(did);
        if parent != did {
            let _ = write!(o, ",\"root\":{}", jstr(&self.key(parent)));
            let p = tcx.parent(did);
            let _ = write!(o, ",\"parent\":{}", jstr(&self.key(p)));
        }
        if matches!(kind, DefKind::Fn | DefKind::AssocFn) {
            let vis = tcx.visibility(did);
            let v = if vis.is_public() { "pub" } else { "restricted" };
            let _ = write!(o, ",\"vis\":\"{}\"", v);
            if kind == DefKind::AssocFn {
                let ai = tcx.associated_item(did);
                if let Some(t) = ai.trait_item_def_id() {
                    let _ = write!(o, ",\"trait_item\":{}", jstr(&self.key(t)));
                }
                let imp = tcx.parent(did);
                if matches!(tcx.def_kind(imp), DefKind::Impl { .. }) {
                    let st = tcx.type_of(imp).instantiate_identity().skip_norm_wip();
                    let _ = write!(o, ",\"self_ty\":{}", jstr(&self.ty_str(st)));
                }
            }
        }
        // locals
        o.push_str(",\"locals\":[");
        for (i, (_, d)) in body.local_decls.iter_enumerated().enumerate() {
            if i > 0 {
                o.push(',');
            }
            o.push_str(&jstr(&self.ty_str(d.ty)));
        }
        o.push_str("],\"dbg\":[");
        let mut first = true;
        for v in body.var_debug_info.iter() {
            if let mir::VarDebugInfoContents::Place(p) = &v.value {
                if !first {
                    o.push(',');
                }
                first = false;
                let _ = write!(o, "{{\"n\":{},\"p\":{}}}", jstr(&v.name.to_string()), self.place(body, p));
            }
        }
        o.push(']');
        if let Some(layout) = body.coroutine_layout_raw() {
            o.push_str(",\"cor\":{\"variants\":[");
            for (vi, fields) in layout.variant_fields.iter_enumerated() {
                if vi.as_usize() > 0 {
                    o.push(',');
                }
                o.push('[');
                for (fi, saved) in fields.iter().enumerate() {
                    if fi > 0 {
                        o.push(',');
                    }
                    let n = match layout.field_names[*saved] {
                        Some(n) => n.to_string(),
                        None => format!("_s{}", saved.as_usize()),
                    };
                    o.push_str(&jstr(&n));
                }
                o.push(']');
            }
            o.push_str("]}");
        }
        // index record pieces
        let mut calls: Vec<String> = Vec::new();
        let mut aggs: BTreeSet<String> = BTreeSet::new();
        let mut fnrefs: BTreeSet<String> = BTreeSet::new();
        let mut closures: BTreeSet<String> = BTreeSet::new();

        o.push_str(",\"blocks\":[");
        for (bi, (bb, data)) in body.basic_blocks.iter_enumerated().enumerate() {
            let _ = bb;
            if bi > 0 {
                o.push(',');
            }
            let _ = write!(o, "{{\"cl\":{},\"s\":[", data.is_cleanup);
            let mut firsts = true;
            for st in data.statements.iter() {
                let (ln, x, _) = self.line_of(st.source_info.span);
                match &st.kind {
                    StatementKind::Assign(pr) => {
                        let (p, rv) = &**pr;
                        if !firsts {
                            o.push(',');
                        }
                        firsts = false;
                        // collect index info
                        match rv {
                            Rvalue::Aggregate(k, fields) => {
                                match &**k {
                                    AggregateKind::Adt(d, vi, ..) => {
                                        let adt = tcx.adt_def(*d);
                                        aggs.insert(format!("{}::{}", self.key(*d), adt.variant(*vi).name));
                                    }
                                    AggregateKind::Closure(d, _)
                                    | AggregateKind::Coroutine(d, _)
                                    | AggregateKind::CoroutineClosure(d, _) => {
                                        closures.insert(self.key(*d));
                                    }
                                    _ => {}
                                }
                                for f in fields.iter() {
                                    self.note_fnref(body, f, &mut fnrefs);
                                }
                            }
                            Rvalue::Use(op, ..) | Rvalue::Cast(_, op, _) => {
                                self.note_fnref(body, op, &mut fnrefs);
                            }
                            _ => {}
                        }
                        let _ = write!(
                            o,
                            "{{\"p\":{},\"rv\":{},\"ln\":{},\"x\":{}}}",
                            self.place(body, p),
                            self.rvalue(did, body, rv),
                            ln,
                            x
                        );
                    }
                    StatementKind::SetDiscriminant { place, variant_index } => {
                        if !firsts {
                            o.push(',');
                        }
                        firsts = false;
                        let pty = place.ty(&body.local_decls, tcx).ty;
                        let vn = match pty.kind() {
                            ty::Adt(a, _) if variant_index.as_usize() < a.variants().len() => {
                                a.variant(*variant_index).name.to_string()
                            }
                            _ => format!("#{}", variant_index.as_usize()),
                        };
                        let _ = write!(
                            o,
                            "{{\"sd\":{},\"vi\":{},\"vn\":{},\"ln\":{},\"x\":{}}}",
                            self.place(body, place),
                            variant_index.as_usize(),
                            jstr(&vn),
                            ln,
                            x
                        );
                    }
                    _ => {}
                }
            }
            o.push_str("],\"t\":");
            let term = data.terminator();
            let (ln, x, _) = self.line_of(term.source_info.span);
            let uw = |u: &UnwindAction| -> String {
                match u {
                    UnwindAction::Cleanup(b) => format!("{}", b.as_usize()),
                    _ => String::from("null"),
                }
            };
            let tgt = |t: &Option<BasicBlock>| -> String {
                match t {
                    Some(b) => format!("{}", b.as_usize()),
                    None => String::from("null"),
                }
            };
            match &term.kind {
                TerminatorKind::Goto { target } => {
                    let _ = write!(o, "{{\"t\":\"goto\",\"to\":{}}}", target.as_usize());
                }
                TerminatorKind::SwitchInt { discr, targets } => {
                    let _ = write!(o, "{{\"t\":\"switch\",\"o\":{},\"cases\":[", self.operand(did, body, discr));
                    let dty = discr.ty(&body.local_decls, tcx);
                    for (i, (v, b)) in targets.iter().enumerate() {
                        if i > 0 {
                            o.push(',');
                        }
                        // sign-extend for signed discriminants
                        let vv: i128 = match dty.kind() {
                            ty::Int(it) => {
                                let bits = it.bit_width().unwrap_or(64) as u32;
                                if bits >= 128 {
                                    v as i128
                                } else {
                                    let shift = 128 - bits;
                                    ((v << shift) as i128) >> shift
                                }
                            }
                            _ => v as i128,
                        };
                        let _ = write!(o, "[{},{}]", vv, b.as_usize());
                    }
                    let _ = write!(
                        o,
                        "],\"else\":{},\"ty\":{},\"ln\":{},\"x\":{}}}",
                        targets.otherwise().as_usize(),
                        jstr(&self.ty_str(dty)),
                        ln,
                        x
                    );
                }
                TerminatorKind::Return => o.push_str("{\"t\":\"ret\"}"),
                TerminatorKind::Unreachable => o.push_str("{\"t\":\"unreachable\"}"),
                TerminatorKind::UnwindResume => o.push_str("{\"t\":\"resume\"}"),
                TerminatorKind::UnwindTerminate(_) => o.push_str("{\"t\":\"abort\"}"),
                TerminatorKind::Drop { place, target, unwind, .. } => {
                    let _ = write!(
                        o,
                        "{{\"t\":\"drop\",\"p\":{},\"to\":{},\"uw\":{},\"ln\":{}}}",
                        self.place(body, place),
                        target.as_usize(),
                        uw(unwind),
                        ln
                    );
                }
                TerminatorKind::Call { func, args, destination, target, unwind, fn_span, .. } => {
                    let cal = self.callee(did, body, func);
                    calls.push(format!("{{\"f\":{},\"ln\":{},\"x\":{}}}", cal, ln, x));
                    let _ = write!(o, "{{\"t\":\"call\",\"f\":{},\"args\":[", cal);
                    for (i, a) in args.iter().enumerate() {
                        if i > 0 {
                            o.push(',');
                        }
                        self.note_fnref(body, &a.node, &mut fnrefs);
                        o.push_str(&self.operand(did, body, &a.node));
                    }
                    let sn = self.snippet(term.source_info.span);
                    let _ = fn_span;
                    let _ = write!(
                        o,
                        "],\"dest\":{},\"to\":{},\"uw\":{},\"ln\":{},\"x\":{},\"sn\":{}}}",
                        self.place(body, destination),
                        tgt(target),
                        uw(unwind),
                        ln,
                        x,
                        jstr(&sn)
                    );
                }
                TerminatorKind::TailCall { func, args, .. } => {
                    let cal = self.callee(did, body, func);
                    calls.push(format!("{{\"f\":{},\"ln\":{},\"x\":{}}}", cal, ln, x));
                    let _ = write!(o, "{{\"t\":\"tailcall\",\"f\":{},\"args\":[", cal);
                    for (i, a) in args.iter().enumerate() {
                        if i > 0 {
                            o.push(',');
                        }
                        o.push_str(&self.operand(did, body, &a.node));
                    }
                    let _ = write!(o, "],\"ln\":{}}}", ln);
                }
                TerminatorKind::Assert { cond, expected, msg, target, unwind } => {
                    let (k, ops): (String, Vec<&Operand<'tcx>>) = match &**msg {
                        AssertKind::BoundsCheck { len, index } => ("BoundsCheck".into(), vec![len, index]),
                        AssertKind::Overflow(op, a, b) => (format!("Overflow({:?})", op), vec![a, b]),
                        AssertKind::OverflowNeg(a) => ("OverflowNeg".into(), vec![a]),
                        AssertKind::DivisionByZero(a) => ("DivisionByZero".into(), vec![a]),
                        AssertKind::RemainderByZero(a) => ("RemainderByZero".into(), vec![a]),
                        AssertKind::ResumedAfterReturn(_) => ("ResumedAfterReturn".into(), vec![]),
                        AssertKind::ResumedAfterPanic(_) => ("ResumedAfterPanic".into(), vec![]),
                        AssertKind::ResumedAfterDrop(_) => ("ResumedAfterDrop".into(), vec![]),
                        AssertKind::MisalignedPointerDereference { .. } => ("Misaligned".into(), vec![]),
                        AssertKind::NullPointerDereference => ("NullDeref".into(), vec![]),
                        AssertKind::InvalidEnumConstruction(_) => ("InvalidEnum".into(), vec![]),
                    };
                    let _ = write!(
                        o,
                        "{{\"t\":\"assert\",\"cond\":{},\"exp\":{},\"kind\":{},\"ops\":[",
                        self.operand(did, body, cond),
                        expected,
                        jstr(&k)
                    );
                    for (i, a) in ops.iter().enumerate() {
                        if i > 0 {
                            o.push(',');
                        }
                        o.push_str(&self.operand(did, body, a));
                    }
                    let sn = self.snippet(term.source_info.span);
                    let _ = write!(
                        o,
                        "],\"to\":{},\"uw\":{},\"ln\":{},\"x\":{},\"sn\":{}}}",
                        target.as_usize(),
                        uw(unwind),
                        ln,
                        x,
                        jstr(&sn)
                    );
                }
                TerminatorKind::Yield { resume, .. } => {
                    let _ = write!(o, "{{\"t\":\"yield\",\"to\":{}}}", resume.as_usize());
                }
                TerminatorKind::CoroutineDrop => o.push_str("{\"t\":\"cordrop\"}"),
                TerminatorKind::FalseEdge { real_target, .. } => {
                    let _ = write!(o, "{{\"t\":\"goto\",\"to\":{}}}", real_target.as_usize());
                }
                TerminatorKind::FalseUnwind { real_target, .. } => {
                    let _ = write!(o, "{{\"t\":\"goto\",\"to\":{}}}", real_target.as_usize());
                }
                TerminatorKind::InlineAsm { .. } => o.push_str("{\"t\":\"asm\"}"),
            }
            o.push('}');
        }
        o.push_str("]}");

        // index record
        let mut ix = String::new();
        let _ = write!(
            ix,
            "{{\"t\":\"ix\",\"key\":{},\"name\":{},\"kind\":\"{}\",\"file\":{},\"lo\":{},\"hi\":{}",
            jstr(&key),
            jstr(&name),
            kind_s,
            jstr(&file),
            lo_line,
            hi_line
        );
        if parent != did {
            let _ = write!(ix, ",\"root\":{},\"parent\":{}", jstr(&self.key(parent)), jstr(&self.key(tcx.parent(did))));
        }
        if kind == DefKind::AssocFn {
            let ai = tcx.associated_item(did);
            if let Some(t) = ai.trait_item_def_id() {
                let _ = write!(ix, ",\"trait_item\":{}", jstr(&self.key(t)));
            }
        }
        ix.push_str(",\"calls\":[");
        ix.push_str(&calls.join(","));
        ix.push_str("],\"aggs\":[");
        ix.push_str(&aggs.iter().map(|s| jstr(s)).collect::<Vec<_>>().join(","));
        ix.push_str("],\"fnrefs\":[");
        ix.push_str(&fnrefs.iter().map(|s| jstr(s)).collect::<Vec<_>>().join(","));
        ix.push_str("],\"closures\":[");
        ix.push_str(&closures.iter().map(|s| jstr(s)).collect::<Vec<_>>().join(","));
        ix.push(']');
        (o, ix)
    }

    fn note_fnref(&self, body: &Body<'tcx>, op: &Operand<'tcx>, out: &mut BTreeSet<String>) {
        let t = op.ty(&body.local_decls, self.tcx);
        match t.kind() {
            ty::FnDef(d, _) => {
                out.insert(self.key(*d));
            }
            ty::Closure(d, _) | ty::Coroutine(d, _) | ty::CoroutineClosure(d, _) => {
                out.insert(self.key(*d));
            }
            _ => {}
        }
    }

    fn adt_json(&self, did: DefId) -> String {
        let tcx = self.tcx;
        let adt = tcx.adt_def(did);
        let kind = if adt.is_enum() {
            "enum"
        } else if adt.is_union() {
            "union"
        } else {
            "struct"
        };
        let mut o = format!(
            "{{\"t\":\"adt\",\"key\":{},\"name\":{},\"kind\":\"{}\",\"variants\":[",
            jstr(&self.key(did)),
            jstr(&self.name(did)),
            kind
        );
        for (i, (vi, v)) in adt.variants().iter_enumerated().enumerate() {
            if i > 0 {
                o.push(',');
            }
            let d: i128 = if adt.is_enum() {
                let dv = adt.discriminant_for_variant(tcx, vi);
                // sign handling: keep raw bits for unsigned; sign-extend for signed
                let ty = dv.ty;
                match ty.kind() {
                    ty::Int(it) => {
                        let bits = it.bit_width().unwrap_or(64) as u32;
                        if bits >= 128 {
                            dv.val as i128
                        } else {
                            let shift = 128 - bits;
                            ((dv.val << shift) as i128) >> shift
                        }
                    }
                    _ => dv.val as i128,
                }
            } else {
                0
            };
            let _ = write!(o, "{{\"n\":{},\"d\":{},\"fields\":[", jstr(&v.name.to_string()), d);
            for (fi, f) in v.fields.iter().enumerate() {
                if fi > 0 {
                    o.push(',');
                }
                let fty = tcx.type_of(f.did).instantiate_identity().skip_norm_wip();
                let vis = if f.vis.is_public() { "pub" } else { "restricted" };
                let _ = write!(
                    o,
                    "{{\"n\":{},\"ty\":{},\"vis\":\"{}\"}}",
                    jstr(&f.name.to_string()),
                    jstr(&self.ty_str(fty)),
                    vis
                );
            }
            o.push_str("]}");
        }
        o.push_str("]}");
        o
    }
}

impl rustc_driver::Callbacks for Cb {
    fn after_analysis<'tcx>(
        &mut self,
        _compiler: &rustc_interface::interface::Compiler,
        tcx: TyCtxt<'tcx>,
    ) -> Compilation {
        let crate_name = tcx.crate_name(LOCAL_CRATE).to_string();
        let mut cx = Ctx { tcx, adts: HashSet::new() };
        let mut fns = String::with_capacity(64 << 20);
        let mut meta = String::with_capacity(8 << 20);
        let mut n = 0usize;
        // all local ADTs
        for id in tcx.hir_crate_items(()).definitions() {
            let did = id.to_def_id();
            if matches!(tcx.def_kind(did), DefKind::Struct | DefKind::Enum | DefKind::Union) {
                cx.adts.insert(did);
            }
        }
        let keys: Vec<_> = tcx.mir_keys(()).iter().copied().collect();
        for ldid in keys {
            let did = ldid.to_def_id();
            let kind = tcx.def_kind(did);
            if !matches!(kind, DefKind::Fn | DefKind::AssocFn | DefKind::Closure) {
                continue;
            }
            if kind == DefKind::Closure && tcx.is_coroutine(did) == false {
                // plain closure or coroutine-closure
                if tcx.is_coroutine(did) {
                    continue;
                }
            }
            if !tcx.is_mir_available(did) {
                continue;
            }
            let body = tcx.optimized_mir(did);
            let (fj, ij) = cx.body_json(did, body);
            let off = fns.len();
            fns.push_str(&fj);
            fns.push('\n');
            let _ = write!(meta, "{},\"off\":{},\"len\":{}}}\n", ij, off, fj.len());
            n += 1;
        }
        let mut adts: Vec<(String, DefId)> = cx.adts.iter().map(|d| (cx.key(*d), *d)).collect();
        adts.sort_by(|a, b| a.0.cmp(&b.0));
        let adts: Vec<DefId> = adts.into_iter().map(|x| x.1).collect();
        for d in adts {
            meta.push_str(&cx.adt_json(d));
            meta.push('\n');
        }
        let _ = write!(meta, "{{\"t\":\"end\",\"crate\":{},\"functions\":{}}}\n", jstr(&crate_name), n);
        let p1 = format!("{}/{}.fns.jsonl", self.out_dir, crate_name);
        let p2 = format!("{}/{}.meta.jsonl", self.out_dir, crate_name);
        std::fs::write(&p1, fns).expect("write fns");
        std::fs::write(&p2, meta).expect("write meta");
        Compilation::Continue
    }
}

struct Plain;
impl rustc_driver::Callbacks for Plain {}

fn main() {
    let mut args: Vec<String> = std::env::args().collect();
    // RUSTC_WORKSPACE_WRAPPER: argv[1] is the path of the real rustc
    if args.len() > 1 && (args[1].ends_with("rustc") || args[1].contains("/rustc")) {
        args.remove(1);
    }
    let out_dir = std::env::var("RBGP_FACTS_DIR").ok();
    let wanted = std::env::var("RBGP_FACTS_CRATES").unwrap_or_default();
    let mut crate_name = String::new();
    let mut i = 0;
    while i < args.len() {
        if args[i] == "--crate-name" && i + 1 < args.len() {
            crate_name = args[i + 1].clone();
        }
        i += 1;
    }
    let is_target = !crate_name.is_empty() && wanted.split(',').any(|w| w == crate_name);
    // only the lib/bin compilation proper (not build scripts, not --print probes)
    match (out_dir, is_target) {
        (Some(d), true) => {
            let mut cb = Cb { out_dir: d };
            rustc_driver::run_compiler(&args, &mut cb);
        }
        _ => {
            let mut cb = Plain;
            rustc_driver::run_compiler(&args, &mut cb);
        }
    }
}
